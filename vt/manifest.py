"""Regenerates /verif/MANIFEST.json from the table below:  /venv/bin/python -m vt.manifest"""
import json
import os

VERIF = os.path.dirname(os.path.dirname(os.path.abspath(__file__)))

# id -> (technique, level text, level note, design ref)
CHECKS = {
    "C01": ("model-based history search: exhaustive BFS over all operation sequences of length <= 3/4 over a 15-op alphabet + Hypothesis-generated operation lists (expressions with external scalars re-evaluated with other values, shift operators in place, two tracks), dict-of-lists reference model checked after every step",
            "Histories of feature-table calls (create/update/remove, bracket forms, operator objects, expressions) are interpreted against a "
            "dict model; after every step listed names, per-observation column counts, every value read by name and by (name, index), "
            "coordinates and timestamps are compared with the model. All sequences up to the depth bound are enumerated; longer ones sampled.",
            "Trusts the model (documented meaning of each call) and vt.exprs.evaluate for operator/expression results; undefined arithmetic is not issued.",
            "DESIGN.md 4/C01"),
    "C02": ("grammar-based generation of expression trees printed to user syntax (exhaustive to depth 3 over a small alphabet, random to depth 6), differential against an own tree evaluator and against direct operator-object calls",
            "Expression trees are printed with minimal and with redundant parentheses, blanks, alternative spellings and the documented unary-minus "
            "forms, evaluated by tracklib and by an independent evaluator with the documented operator semantics; exact equality on dyadic data, "
            "1e-9 otherwise; effects of '=' (create / overwrite / coordinate) and absence of side effects are compared on full track snapshots.",
            "Trusts vt.exprs.evaluate (Python arithmetic) as the meaning of the documented operators; undefined or numerically fragile arithmetic is not judged.",
            "DESIGN.md 4/C02"),
    "C03": ("exhaustive enumeration of all 47 482 days + per-second boundary days + Hypothesis pairs/offsets + object histories (convert, edit fields in place, copy, convert again), differential against Python datetime/calendar",
            "Every calendar day 1970-2099 is converted in both directions at five instants and compared field by field with Python's "
            "datetime; boundary days are swept per second; ordering and offsets are sampled with calendar-boundary-weighted generators. "
            "Complete for day-level defects inside the stated range, sampled for sub-second and pair behaviour.",
            "Trusts Python datetime/calendar as the proleptic Gregorian reference; domain 1970..2099, zone 0.",
            "DESIGN.md 4/C03"),
    "C04": ("exhaustive enumeration of every (size <= 33, insertion slot) pair + Hypothesis-generated tracks/arguments (feature tables in any creation order), follow-up edits on result/source to expose aliasing, and operation histories; Python list-of-records reference model",
            "Sort, chronological insertion, extract, time-span extraction, +, %, >, <, removeObsList are compared with the corresponding Python list "
            "expression on records (position, time, features, object identity), source track checked unmodified; histories of insert/remove/sort run against the list model.",
            "Trusts the list model; stability of sort, negative indices and n > size are not demanded.", "DESIGN.md 4/C04"),
    "C05": ("Hypothesis-generated irregular ENU tracks (float and Python-int coordinates, pre-histories leaving fresh or stale derived features, reference tracks reused and edited in place) and step specifications, differential against an independent bisect/linear interpolation and a polyline walk",
            "Temporal resampling: one output per requested instant in (t0, tn], position = own linear interpolation, stamp within 1 ms. Spatial: first fix, count, "
            "every point on the 2D polyline at abscissa k*ds with interpolated z and t; exact-length lattice tracks make 'ds divides L' meaningful.",
            "Trusts the own interpolant; cases decided by rounding at an exact boundary are excluded and counted.", "DESIGN.md 4/C05"),
    "C06": ("exhaustive enumeration of all small multigraphs (<= 3 nodes, <= 2/3 edges, weights {0,1,2}, 3 orientations; also built edge by edge with queries after each addEdge) + Hypothesis multigraphs and histories on one Network object (staged construction, interleaved queries, sub-network searches, A* on admissible weights), differential against Floyd-Warshall over the edges present at that time",
            "Every ordered pair's distance, the unreachable sentinel, single-source lists, and the cut-off tables (key set and values) are compared with Floyd-Warshall over the permitted arcs.",
            "Trusts the own Floyd-Warshall; cut-offs within rounding of a distance only on exactly representable weights.", "DESIGN.md 4/C06"),
    "C07": ("same graph spaces and histories as C06; validity predicate (hop-by-hop walk + geometry chain matcher) plus optimal value from Floyd-Warshall",
            "A returned path is accepted iff it starts/ends at the requested nodes, every hop is an existing edge traversable in that direction, the geometry is those "
            "edges chained in travel direction without repeated junction vertices, and the weights sum to the true shortest distance; None iff unreachable.",
            "Many shortest paths are correct: validity + optimal value are checked, never one expected path.", "DESIGN.md 4/C07"),
    "C08": ("Hypothesis-generated collections/networks (built in one go, incrementally, or re-indexed after late features) and queries on a lattice aligned with cell borders, preceded by other queries on the same index object; one-directional oracle (own segment-cell clipping and point-polyline distance)",
            "No-false-negative oracle only: every feature geometrically present in the queried cell / crossed cells / within ground distance d must be returned; extra candidates never fail.",
            "Trusts the own clipping with a 1e-9 cell-unit shrink (grazing contacts are not demanded).", "DESIGN.md 4/C08"),
    "C09": ("exhaustive enumeration of small HMMs (T <= 2/3, S <= 2, likelihoods {0, 1/2, 1}) + Hypothesis HMMs (fresh / shared candidate list objects, the same track decoded repeatedly), brute-force enumeration of all state sequences as oracle; log-domain metamorphic relation",
            "Decoded sequence must consist of candidate states, attain the minimum of the documented cost over all S^T sequences, and the recorded final cost must equal it; "
            "the log-likelihood form must decode a sequence of equal cost.",
            "Trusts the brute-force enumeration with the documented 1e-300 smoothing.", "DESIGN.md 4/C09"),
    "C10": ("Hypothesis-generated small road networks (with heights), indexes and tracks, several matching calls per network (collections, re-matching with other radii, shared positions); validity predicate (own point-on-polyline test, radius, abscissa sums)",
            "Each observation is unmatched or carries a point on an existing edge within the search radius with end-node distances summing to the edge length; the track itself is unchanged.",
            "Candidate completeness is not part of the statement and not demanded; index preconditions taken from the callers.", "DESIGN.md 4/C10"),
    "C11": ("exhaustive enumeration of all 2^n marker vectors (n <= 12) + Hypothesis feature/threshold grids and follow-up operations on the pieces (segmentation of pieces, source re-judged), partition and fold reference models",
            "split: pieces concatenate to the track (object identity), each but the last ends on a marker; segmentation: marker == own evaluation of the AND/OR threshold rule, NaN ignored.",
            "Trusts the partition model; all-NaN rows in OR mode are not demanded.", "DESIGN.md 4/C11"),
    "C12": ("exhaustive enumeration of small cost matrices ({0,1,2}, n <= 5; {0,1}, n = 6) + Hypothesis matrices of nine numpy dtypes, repeated calls on one matrix / one track with in-place edits, built-in simplification criteria; brute-force enumeration of all 2^(n-2) partitions, both directions",
            "Returned index list must be strictly increasing from first to last candidate and its summed cost must equal the brute-force optimum for the requested direction; "
            "delegating callers (optimalSegmentation, simplify FREE modes, stop detection) are re-scored with the matrix they document.",
            "Trusts brute-force enumeration; many optimal partitions are accepted.", "DESIGN.md 4/C12"),
    "C13": ("Hypothesis-generated tracks/networks and writer configurations (+ complete enumeration of column layouts x separators x header x time formats), re-export after in-place edits, sequences of writes sharing global formats; write->read round-trip",
            "CSV, GPX, network CSV and WKT files written by tracklib are read back with the matching format and compared with the generated data to the printed precision.",
            "The case itself is the oracle; KML/GeoJSON/raster are outside the statement.", "DESIGN.md 4/C13"),
    "C14": ("Hypothesis-generated positions/bases/tracks weighted to the antimeridian, equator and near-pole classes, histories reusing and editing base objects in place; round-trip relations and differential against an own closed-form WGS84 conversion",
            "geo<->ecef<->enu, enu(b1)<->enu(b2), Lambert-93 round trips to 1e-9 deg / 1 mm; ECEF against own closed form to 1e-6 m; base maps to (0,0,0); track conversions equal point-wise ones.",
            "Trusts the own WGS84 constants/closed form; UTM inverse and the stereographic branch are outside the statement.", "DESIGN.md 4/C14"),
    "C15": ("Hypothesis-generated signals (isolated NaN, constants, monotone), weight lists and kernel objects, several kernels configured and used in one case (histories), entry points operate / filter_seq / Track.smooth; differential against an own renormalised convolution plus bracket/constant invariants",
            "Filter output == own renormalised weighted mean over in-track non-NaN samples; constants unchanged; output within window min/max; unfiltered boundaries copied; sliding windows odd, symmetric, sum 1.",
            "Windows whose usable weight is 0 are not judged.", "DESIGN.md 4/C15"),
    "C16": ("exhaustive enumeration of all 2..3/4-fix lattice tracks + Hypothesis lattice/float/Python-int tracks with loops, duplicates, collinear runs, tolerances near actual deviations, repeated simplification of one Track object with in-place edits; subsequence/end-point predicates and own point-polyline distance",
            "Douglas-Peucker and Visvalingam must not fail, must return a subsequence containing first and last fix; for Douglas-Peucker every input fix within tolerance of the output polyline.",
            "No error bound is demanded for Visvalingam; dmax == tolerance ties accepted either way.", "DESIGN.md 4/C16"),
    "C17": ("Hypothesis-generated ENU tracks with repeated positions/timestamps and extreme leg lengths, operation orders over a track and a part derived from it; differential against cumulative hypot and neighbour chord / dt",
            "abs_curv starts at 0, increments equal planimetric leg lengths, is idempotent; speed equals the documented centred / one-sided quotient, NaN iff dt == 0; positions and times untouched.",
            "Trusts math.hypot; 1e-9 relative tolerance.", "DESIGN.md 4/C17"),
    "C18": ("exhaustive enumeration of all lattice track pairs (sizes <= 2/3) + Hypothesis pairs with ties and histories (already matched inputs, the same objects matched again after in-place moves); brute-force enumeration of all monotone couplings (own DP beyond 6x6), swap metamorphic relation",
            "Score == optimum over all couplings for p in {1,2,inf}; symmetric under swap; returned coupling valid, covering, and its realised cost == score; FDTW and compare(FRECHET) agree.",
            "Any optimal coupling is accepted; own DP cross-validated against enumeration on every enumerable case.", "DESIGN.md 4/C18"),
    "C19": ("Hypothesis-generated collections on lattices aligned with cell borders, non-square resolutions, margins, NaN features, per-track feature layouts, aggregate operators in any order and recomputed; own cell-footprint test and Python aggregates",
            "Every fix falls in exactly one cell whose footprint contains it; counts are conserved; each cell's count/sum/min/max/avg/median equals the Python aggregate of its non-NaN values; empty cells hold the empty aggregate.",
            "Trusts Python aggregates; 1e-9 footprint tolerance.", "DESIGN.md 4/C19"),
    "C20": ("Hypothesis-generated polylines with oblique/horizontal/vertical/zero-length segments and queries beside/beyond/on/at-vertex/far; differential against an own clamped-parameter nearest point",
            "Returned point lies on the returned (real) segment, returned distance == |q - point| == own minimum distance, through proj_segment, proj_polyligne and both forms of mapOnTrack.",
            "1e-9 x scale tolerance; ties between segments accepted; near-degenerate segments not judged. Vertical-segment defect recorded as known findings (pinned by the suite).", "DESIGN.md 4/C20"),
}

# properties whose check is finished, reviewed and quiet on the current tree
READY = ["C%02d" % i for i in range(1, 21)]

NOT_YET = "check not built yet in this round (planned, see DESIGN.md section 4); not a limit of the technique"


def build():
    props = [json.loads(l)["id"] for l in open(os.path.join(VERIF, "properties.jsonl"))]
    checks, na = [], []
    for pid in props:
        have = os.path.exists(os.path.join(VERIF, "vt", "props", pid.lower() + ".py"))
        if pid in CHECKS and have and pid in READY:
            tech, text, note, ref = CHECKS[pid]
            checks.append({
                "property_id": pid,
                "quick_cmd": "./check %s --tier quick" % pid,
                "thorough_cmd": "./check %s --tier thorough" % pid,
                "evidence_file": "/verif/evidence/%s.json" % pid,
                "replay_cmd_template": "./check %s --replay {path}" % pid,
                "engine": "vt",
                "level_claimed": {"category": "exploration", "text": text, "design_ref": ref},
                "level_note": note,
                "technique": tech,
            })
        else:
            na.append({"property_id": pid, "reason": NOT_YET})
    return {
        "version": 1,
        "setup_cmd": "(/venv/bin/python -c 'import hypothesis' 2>/dev/null || /venv/bin/pip install --no-index --find-links /opt/veriftools/wheels hypothesis) && "
                     "(PYTHONPATH=/verif/.deps /venv/bin/python -c 'import atheris' 2>/dev/null || "
                     "/venv/bin/pip install -q --no-index --find-links /opt/veriftools/wheels --target /verif/.deps atheris || true)",
        "hooks": {
            "guard": "TRACKLIB_VERIF",
            "enable": "no source hooks: every property is observable through the public API; checks import tracklib from /repo's working tree (sys.path), nothing to build",
            "baseline_off_cmd": "cd /repo && /venv/bin/python -m pytest -ra -q -p no:cacheprovider --timeout=900 --continue-on-collection-errors",
            "source_commits": [],
            "add_only": True,
        },
        "engines": [{
            "name": "vt", "path": "/verif/vt",
            "serves_properties": [c["property_id"] for c in checks],
            "kind_free_text": "property-based testing: Hypothesis-generated and exhaustively enumerated cases against independent reference oracles; "
                              "seeded by VERIF_SEED, sharded over 16 processes, shrunk failures become replay files; thorough tier adds a coverage-guided stage (atheris/libFuzzer driving the same Hypothesis tests, tracklib instrumented) for the sub-checks listed in a module's FUZZ",
        }],
        "checks": checks,
        "not_applicable": na,
        "notes": "Known findings and fixed defects: /verif/known_findings.json. Replay (regression) tier: /verif/replays/<id>/. "
                 "New violations are written under /verif/found/<id>/. Exit 2 = harness error (never reported as a violation).",
    }


if __name__ == "__main__":
    m = build()
    with open(os.path.join(VERIF, "MANIFEST.json"), "w") as f:
        json.dump(m, f, indent=1)
    try:
        import jsonschema
        jsonschema.validate(m, json.load(open("/root/.vp/MANIFEST.schema.json")))
        print("MANIFEST.json valid; %d checks, %d not claimed" % (len(m["checks"]), len(m["not_applicable"])))
    except ImportError:
        print("MANIFEST.json written (jsonschema not available to validate)")
