"""Regenerates /verif/MANIFEST.json from the table below:  /venv/bin/python -m vt.manifest"""
import json
import os

VERIF = os.path.dirname(os.path.dirname(os.path.abspath(__file__)))

# id -> (technique, level text, level note, design ref)
CHECKS = {
    "C01": ("model-based history search: exhaustive BFS over all operation sequences of length <= 3/4 + Hypothesis-generated operation lists, dict-of-lists reference model checked after every step",
            "Histories of feature-table calls (create/update/remove, bracket forms, operator objects, expressions) are interpreted against a "
            "dict model; after every step listed names, per-observation column counts, every value read by name and by (name, index), "
            "coordinates and timestamps are compared with the model. All sequences up to the depth bound are enumerated; longer ones sampled.",
            "Trusts the model (documented meaning of each call) and vt.exprs.evaluate for operator/expression results; undefined arithmetic is not issued.",
            "DESIGN.md 4/C01"),
    "C02": ("grammar-based generation of expression trees printed to user syntax (exhaustive to depth 3 over a small alphabet, random to depth 6), differential against an own tree evaluator and against direct operator-object calls",
            "Expression trees are printed with minimal and with redundant parentheses, blanks, alternative spellings and the documented unary-minus "
            "forms, evaluated by tracklib and by an independent evaluator with the documented operator semantics; exact equality on dyadic data, "
            "1e-9 otherwise; effects of '=' (create / overwrite / coordinate) and absence of side effects are compared on full track snapshots.",
            "Trusts vt.exprs.evaluate (Python arithmetic) as the meaning of the documented operators; undefined or numerically fragile arithmetic is not judged.",
            "DESIGN.md 4/C02"),
    "C03": ("exhaustive enumeration of all 47 482 days + per-second boundary days + Hypothesis pairs/offsets, differential against Python datetime/calendar",
            "Every calendar day 1970-2099 is converted in both directions at five instants and compared field by field with Python's "
            "datetime; boundary days are swept per second; ordering and offsets are sampled with calendar-boundary-weighted generators. "
            "Complete for day-level defects inside the stated range, sampled for sub-second and pair behaviour.",
            "Trusts Python datetime/calendar as the proleptic Gregorian reference; domain 1970..2099, zone 0.",
            "DESIGN.md 4/C03"),
}

NOT_YET = "check not built yet in this round (planned, see DESIGN.md section 4); not a limit of the technique"


def build():
    props = [json.loads(l)["id"] for l in open(os.path.join(VERIF, "properties.jsonl"))]
    checks, na = [], []
    for pid in props:
        have = os.path.exists(os.path.join(VERIF, "vt", "props", pid.lower() + ".py"))
        if pid in CHECKS and have:
            tech, text, note, ref = CHECKS[pid]
            checks.append({
                "property_id": pid,
                "quick_cmd": "./check %s --tier quick" % pid,
                "thorough_cmd": "./check %s --tier thorough" % pid,
                "evidence_file": "/verif/evidence/%s.json" % pid,
                "replay_cmd_template": "./check %s --replay {path}" % pid,
                "engine": "vt",
                "level_claimed": {"category": "exploration", "text": text, "design_ref": ref},
                "level_note": note,
                "technique": tech,
            })
        else:
            na.append({"property_id": pid, "reason": NOT_YET})
    return {
        "version": 1,
        "setup_cmd": "/venv/bin/python -c 'import hypothesis' 2>/dev/null || /venv/bin/pip install --no-index --find-links /opt/veriftools/wheels hypothesis",
        "hooks": {
            "guard": "TRACKLIB_VERIF",
            "enable": "no source hooks: every property is observable through the public API; checks import tracklib from /repo's working tree (sys.path), nothing to build",
            "baseline_off_cmd": "cd /repo && /venv/bin/python -m pytest -ra -q -p no:cacheprovider --timeout=900 --continue-on-collection-errors",
            "source_commits": [],
            "add_only": True,
        },
        "engines": [{
            "name": "vt", "path": "/verif/vt",
            "serves_properties": [c["property_id"] for c in checks],
            "kind_free_text": "property-based testing: Hypothesis-generated and exhaustively enumerated cases against independent reference oracles; "
                              "seeded by VERIF_SEED, sharded over 16 processes, shrunk failures become replay files",
        }],
        "checks": checks,
        "not_applicable": na,
        "notes": "Known findings and fixed defects: /verif/known_findings.json. Replay (regression) tier: /verif/replays/<id>/. "
                 "New violations are written under /verif/found/<id>/. Exit 2 = harness error (never reported as a violation).",
    }


if __name__ == "__main__":
    m = build()
    with open(os.path.join(VERIF, "MANIFEST.json"), "w") as f:
        json.dump(m, f, indent=1)
    try:
        import jsonschema
        jsonschema.validate(m, json.load(open("/root/.vp/MANIFEST.schema.json")))
        print("MANIFEST.json valid; %d checks, %d not claimed" % (len(m["checks"]), len(m["not_applicable"])))
    except ImportError:
        print("MANIFEST.json written (jsonschema not available to validate)")
