"""Shared machinery: verdict types, statistics, case runner, Hypothesis driver, sharding,
known-finding matching, evidence and replay files.  See DESIGN.md section 2."""
import collections
import contextlib
import hashlib
import io
import itertools
import json
import math
import os
import signal
import sys
import time
import traceback

VERIF = os.path.dirname(os.path.dirname(os.path.abspath(__file__)))
REPO = os.environ.get("VT_REPO", "/repo")           # set by run.py before tracklib is imported
SHRINK_CPU_S = 90                                     # CPU seconds granted to shrinking one witness (the verdict never depends on it)
CASE_TIMEOUT_S = 120                                  # non-termination guard in CPU seconds of the case (never wall clock: load must not matter)


# ----------------------------------------------------------------------------------------------
# verdicts
class Violation(Exception):
    """The property is broken on this case.  key = root-cause label (as narrow as the defect)."""

    def __init__(self, key, msg=""):
        super().__init__("%s: %s" % (key, msg))
        self.key = key
        self.msg = msg


class HarnessError(Exception):
    """My generator / oracle is wrong or the environment is broken: exit 2, nothing claimed."""


class _Fail(Exception):
    """Internal: carries an unknown-key violation through Hypothesis so that it shrinks."""

    def __init__(self, key, msg, case):
        super().__init__("%s: %s" % (key, msg))
        self.key, self.msg, self.case = key, msg, case


class _CaseTimeout(BaseException):
    pass


class _StopShard(KeyboardInterrupt):
    """Internal (a KeyboardInterrupt subclass so that Hypothesis re-raises it at once instead of shrinking it):
    a non-termination was confirmed; the verdict of this shard is settled, further cases would only burn
    the CPU budget again and again (every case of a tree with such a defect may hang)."""


# ----------------------------------------------------------------------------------------------
# JSON helpers (NaN / inf are written as strings so that every file is strict JSON)
def jsonable(x):
    if isinstance(x, float):
        if x != x:
            return "NaN"
        if x in (math.inf, -math.inf):
            return "Infinity" if x > 0 else "-Infinity"
        return x
    if isinstance(x, (str, int, bool)) or x is None:
        return x
    if isinstance(x, dict):
        return {str(k): jsonable(v) for k, v in x.items()}
    if isinstance(x, (list, tuple)):
        return [jsonable(v) for v in x]
    try:
        import numpy as np
        if isinstance(x, np.generic):
            return jsonable(x.item())
        if isinstance(x, np.ndarray):
            return jsonable(x.tolist())
    except ImportError:
        pass
    return repr(x)


def unjson(x):
    if isinstance(x, str):
        if x == "NaN":
            return math.nan
        if x == "Infinity":
            return math.inf
        if x == "-Infinity":
            return -math.inf
        return x
    if isinstance(x, dict):
        return {k: unjson(v) for k, v in x.items()}
    if isinstance(x, list):
        return [unjson(v) for v in x]
    return x


def case_hash(name, case):
    s = name + "|" + json.dumps(jsonable(case), sort_keys=True, separators=(",", ":"))
    return int.from_bytes(hashlib.blake2b(s.encode(), digest_size=8).digest(), "big")


def derive_seed(*parts):
    s = "|".join(str(p) for p in parts)
    return int.from_bytes(hashlib.blake2b(s.encode(), digest_size=4).digest(), "big")


# ----------------------------------------------------------------------------------------------
# numeric comparison helpers used by many oracles
def isnan(v):
    return isinstance(v, float) and v != v


def close(a, b, rel=1e-9, abs_=1e-12):
    """NaN-aware closeness: NaN matches only NaN, inf only the same inf."""
    try:
        a = float(a)
        b = float(b)
    except (TypeError, ValueError):
        return False
    if a != a or b != b:
        return (a != a) and (b != b)
    if a == b:
        return True
    if math.isinf(a) or math.isinf(b):
        return False
    return abs(a - b) <= abs_ + rel * max(abs(a), abs(b))


def same(a, b):
    """NaN-aware exact equality of two numbers."""
    try:
        a = float(a)
        b = float(b)
    except (TypeError, ValueError):
        return False
    return a == b or (a != a and b != b)


# ----------------------------------------------------------------------------------------------
class Stats:
    def __init__(self):
        self.evaluations = 0
        self.shrink_evals = 0
        self.nontrivial = set()
        self.classes = collections.Counter()
        self.undefined = 0
        self.known = collections.Counter()
        self.samples = []
        self.space = 0          # size of an enumerated space (this shard's part)

    def dump(self):
        return {"evaluations": self.evaluations, "shrink_evals": self.shrink_evals,
                "nontrivial": list(self.nontrivial), "classes": dict(self.classes),
                "undefined": self.undefined, "known": dict(self.known), "samples": self.samples,
                "space": self.space}

    def merge(self, d):
        self.evaluations += d["evaluations"]
        self.shrink_evals += d["shrink_evals"]
        self.nontrivial.update(d["nontrivial"])
        self.classes.update(d["classes"])
        self.undefined += d["undefined"]
        self.known.update(d["known"])
        for s in d["samples"]:
            if len(self.samples) < 4:
                self.samples.append(s)
        self.space += d["space"]


class SubCheck:
    """One generated check.

    body(case) -> None | dict(nt=bool, cls=[str], undef=bool); raises Violation.
    strategy: zero-argument callable returning a Hypothesis strategy of JSON-able cases.
    enum: callable(tier) -> iterable of JSON-able cases (a finite space enumerated completely).
    quick / thorough: number of Hypothesis cases for the whole sub-check (split over shards).
    """

    def __init__(self, name, body, strategy=None, enum=None, quick=300, thorough=None,
                 rule="", qshards=4, tshards=16, enum_in_quick=True):
        self.name = name
        self.body = body
        self.strategy = strategy
        self.enum = enum
        self.quick = quick
        self.thorough = thorough if thorough is not None else quick * 20
        self.rule = rule
        self.qshards = qshards
        self.tshards = tshards
        self.enum_in_quick = enum_in_quick

    def shards(self, tier):
        return self.qshards if tier == "quick" else self.tshards

    def ncases(self, tier):
        return self.quick if tier == "quick" else self.thorough


# ----------------------------------------------------------------------------------------------
# known findings
def load_known():
    path = os.path.join(VERIF, "known_findings.json")
    if not os.path.exists(path):
        return {"findings": [], "fixed": []}
    with open(path) as f:
        return json.load(f)


def known_keys(prop):
    out = {e["key"]: e for e in load_known().get("findings", []) if e["property"] == prop}
    extra = os.environ.get("VT_EXTRA_KNOWN")       # development only: look behind a defect not yet handled
    if extra and os.path.exists(extra):
        with open(extra) as f:
            for e in json.load(f):
                if e["property"] == prop:
                    out[e["key"]] = e
    return out


# ----------------------------------------------------------------------------------------------
# tracklib global state (leaks between cases otherwise) and output sink
def reset_globals():
    try:
        from tracklib.core.obs_time import ObsTime
        ObsTime.setReadFormat("2D/2M/4Y 2h:2m:2s")
        ObsTime.setPrintFormat("2D/2M/4Y 2h:2m:2s")
    except Exception:
        pass
    try:
        import tracklib.algo.mapping as mapping
        if hasattr(mapping, "STATES"):
            mapping.STATES = []
    except Exception:
        pass
    try:
        import tracklib.io.network_reader as nr
        if hasattr(nr.NetworkReader, "counter"):
            nr.NetworkReader.counter = 0
    except Exception:
        pass
    try:
        import tracklib.core.obs_coords as oc
        if hasattr(oc, "STANDARD_PROJ"):
            oc.STANDARD_PROJ = 1
    except Exception:
        pass


class _Null(io.TextIOBase):
    def write(self, s):
        return len(s)

    def flush(self):
        pass


_NULL = _Null()


@contextlib.contextmanager
def quiet():
    with contextlib.redirect_stdout(_NULL), contextlib.redirect_stderr(_NULL):
        yield


def _origin(exc):
    """('tracklib', function) | ('harness', function) | ('other', function): innermost frame that
    belongs to tracklib or to this framework decides who is to blame."""
    tb = traceback.extract_tb(exc.__traceback__)
    trk = os.path.join(os.path.realpath(REPO), "tracklib") + os.sep
    me = os.path.join(VERIF, "vt") + os.sep
    for fr in reversed(tb):
        fn = os.path.realpath(fr.filename)
        if fn.startswith(trk):
            return "tracklib", fr.name.lstrip("_")
        if fn.startswith(me):
            return "harness", fr.name
    return "other", tb[-1].name if tb else "?"


def exc_key(exc):
    who, fn = _origin(exc)
    return "exc:%s:%s" % (type(exc).__name__, fn)


def _alarm(signum, frame):
    raise _CaseTimeout()


def run_body(sub, case):
    """Run body on one case under the sink and the non-termination guard.
    Returns (info, None) or (None, (key, msg))."""
    reset_globals()
    old = signal.signal(signal.SIGPROF, _alarm)
    signal.setitimer(signal.ITIMER_PROF, CASE_TIMEOUT_S)
    try:
        with quiet():
            info = sub.body(case)
        return (info or {}), None
    except Violation as v:
        return None, (v.key, v.msg)
    except HarnessError:
        raise
    except _CaseTimeout:
        # a CPU budget hit is a violation only where the inputs are so small that nothing but non-termination can
        # explain it; modules whose cost depends on generated grid sizes opt out (HANG_IS_VIOLATION = False): there
        # it is "inconclusive", counted in the class histogram, never a violation
        mod = sys.modules.get(getattr(sub.body, "__module__", ""), None)
        if getattr(mod, "HANG_IS_VIOLATION", True):
            return None, ("hang", "case did not finish within %d s of CPU time" % CASE_TIMEOUT_S)
        return {"undef": True, "cls": ["inconclusive-cpu-budget-exceeded"]}, None
    except KeyboardInterrupt:
        raise
    except BaseException as e:          # includes SystemExit from tracklib's exit() calls
        if type(e).__module__.startswith("hypothesis"):
            raise
        who, fn = _origin(e)
        if who == "tracklib":
            return None, (exc_key(e), "%s: %s" % (type(e).__name__, str(e)[:200]))
        raise HarnessError("harness exception in %s/%s on case %s:\n%s" % (
            sub.name, fn, json.dumps(jsonable(case))[:2000],
            "".join(traceback.format_exception(type(e), e, e.__traceback__))))
    finally:
        signal.setitimer(signal.ITIMER_PROF, 0)
        signal.signal(signal.SIGPROF, old)


class ShardRunner:
    """Runs one (sub-check, shard) and collects statistics; unknown violations are shrunk and
    returned, known ones are counted and skipped so that the search continues behind them."""

    def __init__(self, prop, sub, tier, seed, shard, nshards):
        self.prop, self.sub, self.tier, self.seed = prop, sub, tier, seed
        self.shard, self.nshards = shard, nshards
        self.stats = Stats()
        self.known = known_keys(prop)
        self.session_excluded = set()
        self.target = None            # key being shrunk
        self.hangs = 0
        self.shrink_t0 = 0.0
        self.last_fail = None
        self.violations = []

    # one evaluation ---------------------------------------------------------------------------
    def evaluate(self, case, hyp):
        shrinking = self.target is not None
        if shrinking and self.last_fail is not None and time.process_time() - self.shrink_t0 > SHRINK_CPU_S:
            # the violation is established; only the minimality of its witness is given up.  (A defect that makes every
            # call slow - a predecessor chain thousands of hops long, say - would otherwise make shrinking take hours.)
            k, m, c = self.last_fail
            if k not in self.session_excluded:
                self.violations.append({"subcheck": self.sub.name, "key": k, "msg": "[witness not fully shrunk: shrinking "
                                        "stopped after %d CPU-s] %s" % (SHRINK_CPU_S, m), "case": jsonable(c)})
                self.session_excluded.add(k)
            raise _StopShard()
        info, bad = run_body(self.sub, case)
        if shrinking:
            self.stats.shrink_evals += 1
        else:
            self.stats.evaluations += 1
        if bad is None:
            if not shrinking:
                for c in info.get("cls", ()):
                    self.stats.classes[c] += 1
                if info.get("undef"):
                    self.stats.undefined += 1
                if info.get("nt"):
                    h = case_hash(self.sub.name, case)
                    if h not in self.stats.nontrivial:
                        self.stats.nontrivial.add(h)
                        if len(self.stats.samples) < 3:
                            self.stats.samples.append({"subcheck": self.sub.name, "case": jsonable(case)})
            return
        key, msg = bad
        if key in self.known:
            if not shrinking:
                self.stats.known[key] += 1
            return
        if key == "hang":
            # not shrunk (every shrink attempt may cost the whole CPU budget again) and not searched behind: recorded as it
            # is, the next hang in this process gets a short budget, and after the third one the shard stops
            global CASE_TIMEOUT_S
            self.hangs += 1
            CASE_TIMEOUT_S = min(CASE_TIMEOUT_S, 10)
            if key not in self.session_excluded:
                self.violations.append({"subcheck": self.sub.name, "key": key, "msg": msg, "case": jsonable(case)})
                self.session_excluded.add(key)
            if hyp or self.hangs >= 3:
                raise _StopShard()
            return
        if key in self.session_excluded:
            return
        if hyp:
            if self.target is None:
                self.target = key
            if key != self.target:
                return                # keep the shrinker on one root cause
            if self.last_fail is None or self.last_fail[0] != key:
                self.shrink_t0 = time.process_time()
            self.last_fail = (key, msg, case)
            raise _Fail(key, msg, case)
        self.violations.append({"subcheck": self.sub.name, "key": key, "msg": msg, "case": jsonable(case)})
        self.session_excluded.add(key)

    # enumerated part --------------------------------------------------------------------------
    def run_enum(self):
        it = self.sub.enum(self.tier)
        for case in itertools.islice(it, self.shard, None, self.nshards):
            self.stats.space += 1
            self.evaluate(case, hyp=False)

    # Hypothesis part --------------------------------------------------------------------------
    def run_hyp(self, n):
        import hypothesis
        from hypothesis import HealthCheck, Phase, given, settings
        strat = self.sub.strategy()
        for rnd in range(6):          # one root cause per round, then excluded and searched on
            self.target = None
            self.last_fail = None
            sd = derive_seed(self.seed, self.prop, self.sub.name, self.shard, rnd)

            @hypothesis.seed(sd)
            @settings(max_examples=n, database=None, deadline=None, derandomize=False,
                      report_multiple_bugs=False, print_blob=False,
                      phases=(Phase.generate, Phase.shrink),
                      suppress_health_check=[HealthCheck.too_slow, HealthCheck.data_too_large,
                                             HealthCheck.large_base_example])
            @given(strat)
            def test(case):
                self.evaluate(case, hyp=True)

            try:
                test()
                return
            except _Fail as f:
                self.violations.append({"subcheck": self.sub.name, "key": f.key, "msg": f.msg,
                                        "case": jsonable(f.case)})
                self.session_excluded.add(f.key)
            except (HarnessError, _StopShard):
                raise
            except BaseException as e:
                if isinstance(e, KeyboardInterrupt):
                    raise
                if any(isinstance(x, _StopShard) for x in (getattr(e, "exceptions", None) or ())):
                    raise _StopShard()
                # Flaky / FailedHealthCheck / anything else from the library
                inner = getattr(e, "exceptions", None)
                if inner:
                    for x in inner:
                        if isinstance(x, HarnessError):
                            raise x
                if "Flaky" in type(e).__name__ and self.last_fail is not None:
                    # the oracle rejected a real output of tracklib, but the same case passed when Hypothesis replayed
                    # it: the failure depends on state that tracklib kept from EARLIER calls in this process (a cache, a
                    # class-level flag).  That is a violation of a property quantified over all inputs/histories, not a
                    # harness error; the witness may hold when replayed alone.
                    k, m, c = self.last_fail
                    self.violations.append({"subcheck": self.sub.name, "key": k,
                                            "msg": "[state-dependent: failed after earlier cases in the same process, passed "
                                                   "when replayed alone] " + m, "case": jsonable(c)})
                    self.session_excluded.add(k)
                    self.last_fail = None
                    continue
                raise HarnessError("hypothesis error in %s: %s\n%s" % (
                    self.sub.name, repr(e)[:500],
                    "".join(traceback.format_exception(type(e), e, e.__traceback__))[-3000:]))

    def run(self):
        try:
            if self.sub.enum is not None and (self.tier == "thorough" or self.sub.enum_in_quick):
                self.run_enum()
            if self.sub.strategy is not None:
                n = max(1, self.sub.ncases(self.tier) // self.nshards)
                self.run_hyp(n)
        except _StopShard:
            self.stats.classes["shard-stopped-after-confirmed-non-termination"] += 1
        return {"sub": self.sub.name, "stats": self.stats.dump(), "violations": self.violations}
