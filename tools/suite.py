#!/venv/bin/python
"""Runs the pinned test-suite of a tracklib tree and compares with /root/.vp/BASELINE.json.
usage: tools/suite.py [repo_dir]   -> exit 0 iff every stable_pass test passes"""
import json, os, subprocess, sys, tempfile, xml.etree.ElementTree as ET
repo = sys.argv[1] if len(sys.argv) > 1 else "/repo"
base = json.load(open("/root/.vp/BASELINE.json"))
fd, xml = tempfile.mkstemp(suffix=".xml"); os.close(fd)
env = dict(os.environ, MPLBACKEND="Agg", PYTHONDONTWRITEBYTECODE="1")
subprocess.run(["/venv/bin/python", "-m", "pytest", "-q", "-p", "no:cacheprovider", "--timeout=900",
                "--continue-on-collection-errors", "--junitxml=" + xml], cwd=repo, env=env,
               stdout=subprocess.DEVNULL, stderr=subprocess.DEVNULL)
passed = set()
for tc in ET.parse(xml).getroot().iter("testcase"):
    if not any(c.tag in ("failure", "error", "skipped") for c in tc):
        passed.add("%s::%s" % (tc.get("classname"), tc.get("name")))
os.unlink(xml)
missing = sorted(set(base["stable_pass"]) - passed)
print("%d passed; %d of %d baseline tests pass" % (len(passed), len(base["stable_pass"]) - len(missing), len(base["stable_pass"])))
for m in missing:
    print("  NOT PASSING:", m)
sys.exit(1 if missing else 0)
