#!/venv/bin/python
"""Confirms and files a seeded change produced by an independent sub-agent, and runs the property check on it.

  tools/seeded.py import PROP /tmp/seed-cNN-out/K [--name slug]   confirm (demo on both trees, pinned suite with the
                                                                  change) and keep as seeded/<PROP>-<slug>/
  tools/seeded.py run [PROP-slug ...] [--tier quick]              run the registered check against each kept change
Everything happens in scratch worktrees under /tmp that are removed afterwards; /repo is never modified."""
import argparse, glob, json, os, shutil, subprocess, sys, tempfile, time

VERIF = os.path.dirname(os.path.dirname(os.path.abspath(__file__)))
ENV = dict(os.environ, MPLBACKEND="Agg", PYTHONDONTWRITEBYTECODE="1", PYTHONWARNINGS="ignore")


def worktree():
    wt = tempfile.mkdtemp(prefix="vt-seed-", dir="/tmp")
    os.rmdir(wt)
    subprocess.check_call(["git", "-C", "/repo", "worktree", "add", "-q", "--detach", wt, "HEAD"])
    return wt


def drop(wt):
    subprocess.call(["git", "-C", "/repo", "worktree", "remove", "--force", wt])
    shutil.rmtree(wt, ignore_errors=True)


def demo(wt, path):
    shutil.copy(path, os.path.join(wt, "_demo.py"))
    try:
        r = subprocess.run(["/venv/bin/python", "-W", "ignore", "_demo.py"], cwd=wt, capture_output=True, text=True, env=ENV, timeout=600)
        return r.returncode, (r.stdout + r.stderr)[-600:]
    finally:
        os.unlink(os.path.join(wt, "_demo.py"))


def run_check(prop, wt, tier, seed="1"):
    t0 = time.time()
    c = subprocess.run([os.path.join(VERIF, "check"), prop, "--tier", tier, "--repo", wt, "--no-evidence"],
                       capture_output=True, text=True, env=dict(os.environ, VERIF_SEED=seed))
    shutil.rmtree(os.path.join(VERIF, "found", prop), ignore_errors=True)
    keys = [l.strip() for l in c.stdout.splitlines() if l.strip().startswith("violation")]
    return c.returncode, keys, time.time() - t0, c.stdout


def cmd_import(a):
    src = a.dir
    prop = a.prop.upper()
    slug = a.name or os.path.basename(os.path.normpath(src))
    dst = os.path.join(VERIF, "seeded", "%s-%s" % (prop, slug))
    patch, dm = os.path.join(src, "patch.diff"), os.path.join(src, "demo.py")
    wt = worktree()
    try:
        clean_rc, clean_out = demo(wt, dm)
        r = subprocess.run(["git", "-C", wt, "apply", patch], capture_output=True, text=True)
        if r.returncode:
            print("REJECT %s: patch does not apply: %s" % (src, r.stderr[:300]))
            return 1
        bad_rc, bad_out = demo(wt, dm)
        s = subprocess.run([os.path.join(VERIF, "tools", "suite.py"), wt], capture_output=True, text=True)
        suite_ok = s.returncode == 0
        print("%s: demo clean=%d patched=%d suite=%s" % (src, clean_rc, bad_rc, "ok" if suite_ok else s.stdout.strip()[-400:]))
        if clean_rc != 0 or bad_rc == 0 or not suite_ok:
            print("REJECT %s (needs demo exit 0 on the clean tree, non-zero with the change, suite unchanged)" % src)
            print(clean_out if clean_rc else bad_out)
            return 1
        os.makedirs(dst, exist_ok=True)
        shutil.copy(patch, os.path.join(dst, "patch.diff"))
        shutil.copy(dm, os.path.join(dst, "demo.py"))
        notes = open(os.path.join(src, "notes.md")).read() if os.path.exists(os.path.join(src, "notes.md")) else ""
        head = subprocess.check_output(["git", "-C", "/repo", "rev-parse", "--short", "HEAD"], text=True).strip()
        meta = {"property": prop, "id": "%s-%s" % (prop, slug), "origin": "independent sub-agent given only the property text",
                "needs_to_manifest": notes.strip(), "repo_head_when_confirmed": head,
                "confirmed": {"demo_exit_clean_tree": clean_rc, "demo_exit_with_change": bad_rc,
                              "pinned_suite_with_change": s.stdout.strip().splitlines()[0] if s.stdout.strip() else "",
                              "commands": ["git worktree add --detach /tmp/<scratch> HEAD", "python demo.py  (clean tree)",
                                           "git apply patch.diff", "python demo.py  (with change)", "tools/suite.py /tmp/<scratch>"]},
                "demo_output_with_change": bad_out[-400:]}
        json.dump(meta, open(os.path.join(dst, "meta.json"), "w"), indent=1)
        print("kept as", dst)
        return 0
    finally:
        drop(wt)


def cmd_run(a):
    dirs = sorted(glob.glob(os.path.join(VERIF, "seeded", "*-*")))
    if a.ids:
        dirs = [d for d in dirs if os.path.basename(d) in a.ids or os.path.basename(d).split("-")[0] in a.ids]
    missed = 0
    for d in dirs:
        meta = json.load(open(os.path.join(d, "meta.json")))
        prop = meta["property"]
        if not os.path.exists(os.path.join(VERIF, "vt", "props", prop.lower() + ".py")):
            print("%-28s no check module yet" % os.path.basename(d))
            continue
        wt = worktree()
        try:
            r = subprocess.run(["git", "-C", wt, "apply", os.path.join(d, "patch.diff")], capture_output=True, text=True)
            if r.returncode:
                print("%-28s patch no longer applies: %s" % (os.path.basename(d), r.stderr.strip()[:200]))
                continue
            rc, keys, secs, out = run_check(prop, wt, a.tier, a.seed)
        finally:
            drop(wt)
        verdict = {0: "MISSED", 1: "caught", 2: "HARNESS-ERROR"}.get(rc, "?")
        print("%-28s %s tier=%s exit=%d %.0fs  %s" % (os.path.basename(d), verdict, a.tier, rc, secs, "; ".join(k[:110] for k in keys[:3])))
        if rc == 2:
            print(out[-1500:])
        meta.setdefault("check_results", {})[a.tier] = {"exit": rc, "verdict": verdict, "keys": [k[:200] for k in keys[:5]], "seed": a.seed}
        json.dump(meta, open(os.path.join(d, "meta.json"), "w"), indent=1)
        missed += rc != 1
    return 1 if missed else 0


ap = argparse.ArgumentParser()
sp = ap.add_subparsers(dest="cmd", required=True)
p1 = sp.add_parser("import"); p1.add_argument("prop"); p1.add_argument("dir"); p1.add_argument("--name")
p2 = sp.add_parser("run"); p2.add_argument("ids", nargs="*"); p2.add_argument("--tier", default="quick"); p2.add_argument("--seed", default="1")
a = ap.parse_args()
sys.exit(cmd_import(a) if a.cmd == "import" else cmd_run(a))
