#!/venv/bin/python
"""prints the prompt for a fresh bug-seeding sub-agent for one property (it gets the property text only)"""
import json, sys
pid = sys.argv[1].upper()
ROUND = int(sys.argv[2]) if len(sys.argv) > 2 else 1
p = next(json.loads(l) for l in open("/verif/properties.jsonl") if json.loads(l)["id"] == pid)
wt = "/tmp/seed%s-%s" % ("" if ROUND == 1 else str(ROUND), pid.lower())
out = wt + "-out"
NCH, NCH_N = ("THREE", 3) if ROUND in (1, 4) else ("TWO", 2)

EXTRA = "" if ROUND == 1 else """
IMPORTANT - this is a second, harder round. An earlier round already planted plain local slips (off-by-one, flipped comparison, wrong tie-break, dropped special case, swapped arguments in one function) and the project's verification caught those at once with randomised single-call checks. This time every change must be of a kind that a check calling the changed function ONCE on a fresh object with a random input would be unlikely to notice. Prefer:
  - state that survives between calls: a cache / memo / module-level global / 'last used' slot that goes stale, a lazily computed attribute that is not invalidated, an input object (list, numpy array, Obs, coordinate, track) that is mutated or aliased so that a LATER call or a second object is affected;
  - behaviour that depends on the ORDER of operations or on calling a second public entry point first (operator overloads vs methods, convenience wrappers vs core functions, collection-level vs track-level calls);
  - argument variants that real callers use but are rare: int vs float vs numpy scalar, 0 / None / negative / empty, an ObsTime vs seconds, a Node vs its id, a 1-element or 2-element input, the same object passed twice;
  - two cooperating edits in different functions/files that are each harmless alone.
Do not repeat the plain local slips of the first round.
"""
if ROUND >= 3:
    EXTRA += """
This is in fact the THIRD round. The second round planted (and the verification now catches): stale caches/memos keyed by object identity or by an incomplete key, class-level flags shared between instances, feature-table dictionaries aliased between a derived track and its source, results not reset when the output feature already exists, callers' lists / numpy arrays / matrices mutated in place, integer dtypes inferred by numpy from int inputs (truncation, wrap-around), stale state across repeated calls on the same Track / Network / index / kernel / matrix object (also with in-place edits in between), order of aggregate operators, per-track feature layouts. Find something DIFFERENT in kind: e.g. an interaction with another public feature of the library that is not named in the property but legitimately precedes the call in real programs (coordinate-system conversions, time-zone or format settings, units, track ids, copy()/deepcopy semantics, iteration protocols, pickling, equality/hash of objects used as dict keys), numerical regimes the property covers but generators seldom hit (very large or very small magnitudes, values straddling a threshold by one ulp, negative zero, subnormal steps, huge counts), error paths that swallow an exception and return a plausible value, or defaults that change meaning (None vs 0 vs missing argument, positional vs keyword)."""
if ROUND == 4:
    EXTRA = """
Make the three changes of three different KINDS, one each:
  change 1 - a plain local slip (off-by-one, flipped or non-strict comparison, wrong tie-break, dropped special case, swapped arguments, wrong index, early exit) that needs an unusual but legal input to show (ties, duplicates, zeros, boundary values, particular sizes or orders);
  change 2 - state that survives between calls or objects: a cache / memo / module- or class-level slot that goes stale, a lazily computed attribute that is not invalidated, an existing result that is not reset, an input object (list, numpy array, Obs, coordinate, track, network) that is mutated or aliased so that a LATER call or a second object is affected, a dependence on the order in which public entry points are called;
  change 3 - something that depends on a neighbouring public feature or an input class that ordinary tests hold constant: the coordinate class (ENU / geographic / ECEF), time-zone labels, numeric types (Python int vs float vs numpy scalars and dtypes), magnitudes (very small / very large values, values within a tolerance of each other), sizes (empty, 1, 2, >= 1000), falsy parameter values (0, 0.0, None, empty), names and identifiers with unusual characters, objects that are equal but not identical, operators spelled in their augmented or reflected form.
"""
print(f"""You are testing how good a project's verification is by planting realistic bugs. The project is the pure-Python GPS trajectory library tracklib (git repository at /repo). Work ONLY in your own scratch git worktree: create it with
  git -C /repo worktree add --detach {wt} HEAD
and make all edits under {wt}. Never edit, commit, checkout or stash anything in /repo itself (and never run `git stash` at all, not even inside your worktree: the stash is shared with /repo - undo with `git checkout -- .` or `git apply -R`), and do not read or touch anything under /verif (you must work independently of it). Python is /venv/bin/python (pytest available); there is no network.

{EXTRA}
The property that must be broken:

  Title: {p['title']}
  Statement: {p['statement']}
  Quantified over: {p['quantifier']['text']}
  Code it lives in: {', '.join(p['anchors']['files'])}

Produce {NCH} different, independent changes to tracklib's source (each a separate small patch against the unmodified worktree, touching only files under tracklib/), each of which
  (a) breaks the property above for some inputs / operation sequences, i.e. the library then really returns a wrong result or fails where the statement says it must not;
  (b) still imports fine and still passes the repository's existing test-suite exactly as before. Check with
        cd {wt} && /venv/bin/python -m pytest -q -p no:cacheprovider --timeout=900 2>&1 | tail -15
      The unmodified tree gives "11 failed, 243 passed" (the 11 failures are pre-existing: testMapOn, testMapOnRaster, test_read_wfs, test_read_asc, test_read_ign_mnt, test_read_metadata_mnt, testWriteTwoTrackToManyGpx0AF/1AF/2AF, testCircleTrigo, testCircles); with your change the same 243 must still pass;
  (c) looks like a plausible slip a maintainer could make during a refactoring or "optimisation" (off-by-one, wrong comparison, swapped arguments, stale cache, dropped special case, wrong tie-break, early exit...), not sabotage and not a comment-flagged hack;
  (d) needs something SPECIFIC to manifest - a particular multi-step sequence of operations, an unusual but legal input (ties, duplicates, zero weights, boundary values, particular sizes, a particular ordering), or two cooperating code sites that each look fine alone - so that ordinary use and the existing tests do not expose it at once. Avoid changes that break almost every call.
Make the changes as different from each other as you can (different functions / different triggering conditions).

For each change k = 1..{NCH_N} write into {out}/k/ :
  patch.diff   - `git -C {wt} diff` of that change alone (applies with `git apply` to the unmodified tree)
  demo.py      - a small stand-alone program (run as `cd <tree> && /venv/bin/python demo.py`, it should insert the tree's root into sys.path itself via os.getcwd()) that exits 0 on the unmodified tree and exits 1 (printing what is wrong) with the change applied, demonstrating the violation of the property through the public API
  notes.md     - 5-10 lines: what the change is, why it breaks the property, what exactly is needed for it to manifest, and the pytest summary line you observed with it.
Reset the worktree between changes (git -C {wt} checkout -- .). When done, remove the worktree: git -C /repo worktree remove --force {wt}. Your final message: for each change one paragraph (file/function changed, trigger condition, demo result on both trees, pytest summary).""")
