#!/venv/bin/python
"""Sensitivity harness: apply a patch to a scratch worktree of /repo HEAD, run a property check against it,
optionally the pinned suite and a demo program, then remove the worktree.

usage: tools/mutate.py PROP patch.diff [--tier quick|thorough] [--suite] [--demo demo.py] [--seed N] [--keep]
prints one line:  PROP patch -> check exit E (caught / MISSED) [suite ok/BROKEN] [demo exit D]
exit 0 iff the check exited 1 (caught)."""
import argparse, os, shutil, subprocess, sys, tempfile

ap = argparse.ArgumentParser()
ap.add_argument("prop")
ap.add_argument("patch")
ap.add_argument("--tier", default="quick")
ap.add_argument("--suite", action="store_true")
ap.add_argument("--demo")
ap.add_argument("--seed", default="1")
ap.add_argument("--keep", action="store_true")
ap.add_argument("--expect", default="caught", choices=["caught", "quiet"])
a = ap.parse_args()
VERIF = os.path.dirname(os.path.dirname(os.path.abspath(__file__)))
wt = tempfile.mkdtemp(prefix="vt-mut-", dir="/tmp")
os.rmdir(wt)
try:
    subprocess.check_call(["git", "-C", "/repo", "worktree", "add", "-q", "--detach", wt, "HEAD"])
    r = subprocess.run(["git", "-C", wt, "apply", os.path.abspath(a.patch)], capture_output=True, text=True)
    if r.returncode != 0:
        print("%s %s -> PATCH DOES NOT APPLY: %s" % (a.prop, a.patch, r.stderr.strip()[:300]))
        sys.exit(3)
    env = dict(os.environ, VERIF_SEED=a.seed)
    c = subprocess.run([os.path.join(VERIF, "check"), a.prop, "--tier", a.tier, "--repo", wt, "--no-evidence"],
                       capture_output=True, text=True, env=env)
    viol = [l for l in c.stdout.splitlines() if l.startswith("VIOLATION") or l.strip().startswith("violation")]
    out = "%s %s -> check exit %d (%s)" % (a.prop, os.path.relpath(a.patch), c.returncode,
                                           {0: "MISSED", 1: "caught", 2: "HARNESS-ERROR"}.get(c.returncode, "?"))
    if a.suite:
        s = subprocess.run([os.path.join(VERIF, "tools", "suite.py"), wt], capture_output=True, text=True)
        out += " [suite %s]" % ("ok" if s.returncode == 0 else "BROKEN: " + s.stdout.strip()[-300:])
    if a.demo:
        shutil.copy(a.demo, os.path.join(wt, "_demo.py"))
        d = subprocess.run(["/venv/bin/python", "-W", "ignore", "_demo.py"], cwd=wt, capture_output=True, text=True,
                           env=dict(os.environ, MPLBACKEND="Agg", PYTHONDONTWRITEBYTECODE="1"))
        out += " [demo exit %d]" % d.returncode
    print(out)
    for l in viol[:6]:
        print("    " + l[:400])
    if c.returncode == 2:
        print(c.stdout[-1500:])
    # found/ files written by this run belong to the mutant, not to /repo: remove them
    shutil.rmtree(os.path.join(VERIF, "found", a.prop.upper()), ignore_errors=True)
    ok = (c.returncode == 1) if a.expect == "caught" else (c.returncode == 0)
    sys.exit(0 if ok else 1)
finally:
    if not a.keep:
        subprocess.call(["git", "-C", "/repo", "worktree", "remove", "--force", wt])
        shutil.rmtree(wt, ignore_errors=True)
