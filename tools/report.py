#!/venv/bin/python
"""Regenerates the sensitivity tables of DESIGN.md (between the markers <!-- SENS:BEGIN --> and <!-- SENS:END -->)
from seeded/*/meta.json and mutants/RESULTS.json.   usage: tools/report.py"""
import glob, json, os, re

VERIF = os.path.dirname(os.path.dirname(os.path.abspath(__file__)))


def first_line(text, n=230):
    text = re.sub(r"\s+", " ", re.sub(r"[#*`]", "", text or "")).strip()
    return text[:n] + ("..." if len(text) > n else "")


def seeded_rows():
    rows = []
    for d in sorted(glob.glob(os.path.join(VERIF, "seeded", "*-*"))):
        m = json.load(open(os.path.join(d, "meta.json")))
        res = m.get("check_results", {})
        tiers = []
        keys = []
        for tier in ("quick", "thorough"):
            if tier in res:
                tiers.append("%s: %s" % (tier, res[tier]["verdict"]))
                for k in res[tier].get("keys", []):
                    kk = k.replace("violation ", "").split(":")[0].strip()
                    if kk.startswith("exc"):
                        kk = ":".join(k.replace("violation ", "").split(":")[:3]).strip()
                    if kk not in keys:
                        keys.append(kk)
        hist = m.get("history", "")
        rows.append("| %s | %s | %s | %s |%s" % (m["id"], first_line(m.get("needs_to_manifest", "")), "; ".join(tiers) or "not run",
                                                ", ".join(keys[:4]), (" " + hist) if hist else ""))
    return rows


def mutant_rows():
    path = os.path.join(VERIF, "mutants", "RESULTS.json")
    if not os.path.exists(path):
        return [], ""
    r = json.load(open(path))
    by = {}
    for x in r["results"]:
        by.setdefault(x["property"], []).append(x)
    rows = []
    for p in sorted(by):
        xs = by[p]
        caught = [x for x in xs if x["expect"] == "caught" and x["check_exit"] == 1]
        missed = [x for x in xs if x["expect"] == "caught" and x["check_exit"] != 1]
        nc = [x for x in xs if x["expect"] == "quiet"]
        ncbad = [x for x in nc if x["check_exit"] != 0]
        rows.append("| %s | %d/%d | %s | %d/%d quiet%s |" % (
            p, len(caught), len(caught) + len(missed), ", ".join(x["mutant"].replace(".diff", "") for x in missed) or "-",
            len(nc) - len(ncbad), len(nc), (" (ALARM on: %s)" % ", ".join(x["mutant"] for x in ncbad)) if ncbad else ""))
    return rows, "tier %s, repo HEAD %s" % (r.get("tier"), r.get("repo_head"))


out = ["<!-- SENS:BEGIN -->", "",
       "#### Seeded changes (independent sub-agents; each confirmed: demo passes on the clean tree, fails with the change, pinned suite unchanged)",
       "", "| id | change and what it needs to manifest (first lines of the author's notes) | registered check | violation keys raised |",
       "|----|------|------|------|"] + seeded_rows()
mr, info = mutant_rows()
out += ["", "#### Hand-written mutants (mutants/<id>/*.diff, %s); negative controls are behaviour-preserving for the property and must stay quiet" % info,
        "", "| property | mutants caught (quick tier) | missed | negative controls |", "|----|----|----|----|"] + mr + ["", "<!-- SENS:END -->"]
p = os.path.join(VERIF, "DESIGN.md")
s = open(p).read()
block = "\n".join(out)
if "<!-- SENS:BEGIN -->" in s:
    s = s[:s.index("<!-- SENS:BEGIN -->")] + block + s[s.index("<!-- SENS:END -->") + len("<!-- SENS:END -->"):]
else:
    s = s.rstrip("\n") + "\n\n" + block + "\n"
open(p, "w").write(s)
print("DESIGN.md sensitivity tables: %d seeded, %d mutant rows" % (len(seeded_rows()), len(mr)))
