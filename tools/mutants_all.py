#!/venv/bin/python
"""Runs every patch under mutants/<PROP>/ through tools/mutate.py (scratch worktree, quick tier) and writes
mutants/RESULTS.json.  Negative controls (file name starts with 'nc-', 'equivalent-' or contains 'negctl' /
'NEGCTRL' / 'negative-control') are behaviour-preserving w.r.t. the property and must stay QUIET.

usage: tools/mutants_all.py [PROP ...] [--par 3] [--tier quick]"""
import argparse, concurrent.futures, glob, json, os, re, subprocess, sys

VERIF = os.path.dirname(os.path.dirname(os.path.abspath(__file__)))
ap = argparse.ArgumentParser()
ap.add_argument("props", nargs="*")
ap.add_argument("--par", type=int, default=3)
ap.add_argument("--tier", default="quick")
ap.add_argument("--no-write", action="store_true", help="do not update mutants/RESULTS.json")
a = ap.parse_args()


def is_negctl(name):
    n = name.lower()
    return n.startswith("nc-") or n.startswith("equivalent-") or "negctl" in n or "negctrl" in n or "negative-control" in n


def one(path):
    prop = os.path.basename(os.path.dirname(path))
    name = os.path.basename(path)
    expect = "quiet" if is_negctl(name) else "caught"
    r = subprocess.run([os.path.join(VERIF, "tools", "mutate.py"), prop, path, "--tier", a.tier, "--expect", expect],
                       capture_output=True, text=True)
    m = re.search(r"check exit (\d+)", r.stdout)
    keys = sorted(set(re.findall(r"violation ([^:]+):", r.stdout)))
    return {"property": prop, "mutant": name, "expect": expect, "check_exit": int(m.group(1)) if m else None,
            "ok": r.returncode == 0, "keys": keys[:6]}


props = [p.upper() for p in a.props] or sorted(os.path.basename(d) for d in glob.glob(os.path.join(VERIF, "mutants", "C*")))
paths = [p for pr in props for p in sorted(glob.glob(os.path.join(VERIF, "mutants", pr, "*.diff")))]
res = []
with concurrent.futures.ThreadPoolExecutor(a.par) as ex:
    for r in ex.map(one, paths):
        print("%s %-55s expect=%-6s exit=%s %s %s" % (r["property"], r["mutant"], r["expect"], r["check_exit"],
                                                 "ok" if r["ok"] else "**UNEXPECTED**", ",".join(r["keys"])[:100]), flush=True)
        res.append(r)
out = os.path.join(VERIF, "mutants", "RESULTS.json")
old = []
if a.props and os.path.exists(out):
    old = [r for r in json.load(open(out))["results"] if r["property"] not in props]
allr = sorted(old + res, key=lambda r: (r["property"], r["mutant"]))
head = subprocess.run(["git", "-C", "/repo", "rev-parse", "--short", "HEAD"], capture_output=True, text=True).stdout.strip()
if not a.no_write:
    json.dump({"tier": a.tier, "repo_head": head, "results": allr}, open(out, "w"), indent=1)
bad = [r for r in res if not r["ok"]]
print("%d mutants, %d unexpected" % (len(res), len(bad)))
sys.exit(1 if bad else 0)
