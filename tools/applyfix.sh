#!/bin/sh
# usage: tools/applyfix.sh <diff> "<fix: message>"   -> applies to /repo, runs the pinned suite, commits if it still passes
set -e
cd /repo
git apply --3way "$1" 2>/dev/null || git apply "$1"
git reset -q
if /verif/tools/suite.py /repo; then
  git commit -q -am "$2"; git log --oneline | head -1
else
  echo "SUITE BROKEN - reverting"; git checkout -q -- .; exit 1
fi
